"""Obligations: build symbolic inputs, run the real toqito function under symbolic execution, discharge
`path-condition /\\ precondition /\\ not post` with z3, replay candidates against the real code."""
from __future__ import annotations

import hashlib
import json
import os
import random
import time
import traceback
from dataclasses import dataclass, field
from fractions import Fraction
from typing import Any, Callable

import numpy as np
import z3

from . import core
from .array import SymArray, has_sym, import_all_toqito, lifted, symbolic_mode
from .core import Ctx, Elem, Poly, Sym, SymBool, SymError, And, as_z3, explore, lift, model_values, use_ctx


# ----------------------------------------------------------------------------------------------
# polymorphic comparison helpers (symbolic: exact; numeric: tolerance)
# ----------------------------------------------------------------------------------------------
NUM_TOL = 1e-7


def is_symbolic(x):
    if isinstance(x, (Sym, SymBool, Elem, SymArray)):
        return True
    if isinstance(x, np.ndarray):
        return has_sym(x)
    if isinstance(x, (list, tuple)):
        return any(is_symbolic(v) for v in x)
    return False


def eq(a, b, tol=NUM_TOL):
    """structural equality: SymBool for symbolic data, bool (allclose) for numbers."""
    if isinstance(a, (list, tuple)) and isinstance(b, (list, tuple)):
        if len(a) != len(b):
            return False
        r = True
        for x, y in zip(a, b):
            e = eq(x, y, tol)
            if isinstance(e, bool) and not e:
                return False
            r = e if r is True else (r & e if not (e is True) else r)
        return r
    if a is None or b is None:
        return a is None and b is None
    if hasattr(a, "toarray"):
        a = a.toarray()
    if hasattr(b, "toarray"):
        b = b.toarray()
    if is_symbolic(a) or is_symbolic(b):
        if isinstance(a, SymBool) or isinstance(b, SymBool):
            return SymBool(a) == SymBool(b) if not isinstance(b, (bool, np.bool_)) or isinstance(a, SymBool) else SymBool(b) == a
        A, B = np.asarray(a, dtype=object), np.asarray(b, dtype=object)
        if A.shape != B.shape:
            if A.size == B.size and A.squeeze().shape == B.squeeze().shape:
                return False  # shape is part of the result
            return False
        conj = []
        for x, y in zip(A.flat, B.flat):
            if isinstance(x, Elem) or isinstance(y, Elem):
                if not (isinstance(x, Elem) and isinstance(y, Elem)):
                    return False
                conj.append(SymBool(x.z3 == y.z3) if x is not y else SymBool(True))
            else:
                conj.append(lift(x).eq_solver(y))
        return And(*conj)
    if isinstance(a, (bool, np.bool_)) or isinstance(b, (bool, np.bool_)):
        return bool(a) == bool(b)
    A, B = np.asarray(a), np.asarray(b)
    if A.shape != B.shape:
        return False
    if A.dtype == object or B.dtype == object:
        A, B = A.astype(complex), B.astype(complex)
    return bool(np.allclose(A, B, rtol=tol, atol=tol))


def implies(p, q):
    if isinstance(p, (bool, np.bool_)) and isinstance(q, (bool, np.bool_)):
        return (not p) or bool(q)
    return (~SymBool(p)) | SymBool(q)


# ----------------------------------------------------------------------------------------------
# input builders
# ----------------------------------------------------------------------------------------------
class Builder:
    """Creates symbolic inputs; in concrete mode (translator validation) the same calls return exact
    rational constants, so the identical harness runs through symnp on numbers."""

    def __init__(self, ctx, concrete_seed=None):
        self.ctx = ctx
        self.rnd = random.Random(concrete_seed) if concrete_seed is not None else None
        self.kinds = {}

    def _val(self):
        return Fraction(self.rnd.randint(-16, 16), 8)

    def real(self, name):
        if self.rnd is not None:
            return lift(self._val())
        return self.ctx.var(name)

    def cplx(self, name):
        if self.rnd is not None:
            return Sym(Poly.const(self._val()), Poly.const(self._val()))
        return self.ctx.cvar(name)

    def array(self, name, shape, kind="c"):
        """kind: 'c' complex, 'r' real, 'e' opaque elements, 'h' Hermitian, 's' real symmetric"""
        if isinstance(shape, int):
            shape = (shape,)
        out = np.empty(shape, dtype=object)
        if kind in ("h", "s"):
            n = shape[0]
            for i in range(n):
                out[i, i] = self.real(f"{name}_{i}_{i}")
                for j in range(i + 1, n):
                    v = self.cplx(f"{name}_{i}_{j}") if kind == "h" else self.real(f"{name}_{i}_{j}")
                    out[i, j] = v
                    out[j, i] = v.conjugate()
        else:
            for k, idx in enumerate(np.ndindex(*shape)):
                nm = f"{name}_" + "_".join(map(str, idx))
                if kind == "e":
                    out[idx] = Elem(nm) if self.rnd is None else lift(1000 * (abs(hash(name)) % 7) + k + 1)
                elif kind == "r":
                    out[idx] = self.real(nm)
                else:
                    out[idx] = self.cplx(nm)
        a = out.view(SymArray)
        self.kinds[name] = kind
        return a


def to_numeric(x, vals, elem_vals=None):
    """symbolic structure -> numpy numbers under an assignment of the atoms."""
    if isinstance(x, Sym):
        v = x.evalf(vals)
        return v
    if isinstance(x, SymBool):
        if x.const is not None:
            return x.const
        raise SymError("cannot evaluate SymBool numerically")
    if isinstance(x, Elem):
        if x.name not in elem_vals:
            k = sum(1 for n in elem_vals if not n.startswith("__")) + 1
            # opaque entries are numbered; with "__complex__" set they get distinct non-real values (a stray conjugate or a
            # dropped imaginary part in code that should only move entries around is invisible on real numbers)
            elem_vals[x.name] = complex(k, (3 * k) % 11 + 1) if elem_vals.get("__complex__") else float(k)
        return elem_vals[x.name]
    if isinstance(x, np.ndarray) and x.dtype == object:
        flat = [to_numeric(v, vals, elem_vals) if isinstance(v, (Sym, Elem, SymBool)) else v for v in x.flat]
        cplx = any(isinstance(v, complex) or (isinstance(v, Sym) and v.im.t) for v in list(flat) + list(x.flat))
        try:
            arr = np.array(flat, dtype=complex if cplx else float).reshape(x.shape)
        except (TypeError, ValueError):
            arr = np.array(flat, dtype=object).reshape(x.shape)
        return arr
    if isinstance(x, list):
        return [to_numeric(v, vals, elem_vals) for v in x]
    if isinstance(x, tuple):
        return tuple(to_numeric(v, vals, elem_vals) for v in x)
    if isinstance(x, dict):
        return {k: to_numeric(v, vals, elem_vals) for k, v in x.items()}
    return x


def jsonable(x):
    if isinstance(x, Sym):
        try:
            v = x.cval()
            return jsonable(complex(v)) if isinstance(v, complex) else float(v)
        except Exception:  # noqa: BLE001
            return repr(x)
    if isinstance(x, (SymBool, Elem)):
        return repr(x)
    if isinstance(x, np.ndarray) and x.dtype == object:
        return [jsonable(v) for v in x.tolist()]
    if isinstance(x, np.ndarray):
        if np.iscomplexobj(x):
            return {"re": x.real.tolist(), "im": x.imag.tolist()}
        return x.tolist()
    if isinstance(x, (np.floating, np.integer)):
        return x.item()
    if isinstance(x, complex):
        return {"re": x.real, "im": x.imag}
    if isinstance(x, (list, tuple)):
        return [jsonable(v) for v in x]
    if isinstance(x, dict):
        return {str(k): jsonable(v) for k, v in x.items()}
    if isinstance(x, (str, int, float, bool)) or x is None:
        return x
    if hasattr(x, "toarray"):
        return jsonable(x.toarray())
    return repr(x)


def from_jsonable(x):
    if isinstance(x, dict) and set(x) == {"re", "im"}:
        return np.array(x["re"]) + 1j * np.array(x["im"])
    if isinstance(x, list):
        try:
            a = np.array(x)
            if a.dtype != object and a.dtype.kind in "fiu":
                return a.astype(float) if a.dtype.kind == "f" else a
        except ValueError:
            pass
        return [from_jsonable(v) for v in x]
    if isinstance(x, dict):
        return {k: from_jsonable(v) for k, v in x.items()}
    return x



def copy_inputs(x):
    """deep copy of the containers and arrays of an input structure (scalars / Sym objects are shared)"""
    if isinstance(x, np.ndarray):
        return x.copy()
    if isinstance(x, list):
        return [copy_inputs(v) for v in x]
    if isinstance(x, tuple):
        return tuple(copy_inputs(v) for v in x)
    if isinstance(x, dict):
        return {k: copy_inputs(v) for k, v in x.items()}
    return x


def inputs_changed(work, pristine, path="inputs"):
    """name of the first argument the call modified in place, or None"""
    if isinstance(pristine, np.ndarray):
        if not isinstance(work, np.ndarray) or work.shape != pristine.shape or work.dtype != pristine.dtype:
            return path
        if pristine.dtype == object:
            for a, b in zip(work.flat, pristine.flat):
                if a is b:
                    continue
                if isinstance(a, Sym) and isinstance(b, Sym) and a.key() == b.key():
                    continue
                if not isinstance(a, (Sym, SymBool, Elem)) and not isinstance(b, (Sym, SymBool, Elem)) and a == b:
                    continue
                return path
            return None
        return None if np.array_equal(work, pristine, equal_nan=True) else path
    if isinstance(pristine, (list, tuple)):
        if not isinstance(work, (list, tuple)) or len(work) != len(pristine):
            return path
        for k, (a, b) in enumerate(zip(work, pristine)):
            r = inputs_changed(a, b, f"{path}[{k}]")
            if r:
                return r
        return None
    if isinstance(pristine, dict):
        for k in pristine:
            r = inputs_changed(work.get(k), pristine[k], f"{path}[{k!r}]")
            if r:
                return r
        return None
    return None

# ----------------------------------------------------------------------------------------------
@dataclass
class Obligation:
    name: str
    cfg: dict
    build: Callable[[Builder], dict]
    call: Callable[[dict], Any]
    oracle: Callable[[dict], Any] | None = None
    post: Callable[[Any, Any, dict], Any] | None = None      # (result, expected, inputs) -> SymBool/bool
    exc_post: Callable[[Exception, dict], Any] | None = None  # condition that must hold when `call` raises
    assume: Callable[[dict], list] | None = None              # symbolic preconditions (list of SymBool)
    valid: Callable[[dict], bool] | None = None               # numeric precondition for replay candidates
    mode: str = "lra"
    objzeros: Any = ()
    rng: Any = None
    max_paths: int = 256
    timeout_ms: int = 60000
    neg: Callable[[Any], Any] | None = None                   # wrong expected value for the negative control
    neg_control: bool = True
    tv: bool = True
    exact: bool = False       # encoding has no abstraction: a non-reproducing model is a harness error
    numeric_only_inputs: tuple = ()
    functions: tuple = ()
    extra_patch: Any = None
    feas_timeout_ms: int = 2000
    genericity_tries: int = 6
    wall_cap_s: float = 600.0
    abs_fork: bool = False    # |x| of a real symbolic x forks on the sign instead of creating a symbol
    weight: int = 1
    dtype_variants: bool = True    # run storage-type variants (float64 / int64 first operand) of a generic point after discharge
    mutable_inputs: bool = False   # True only if the function is documented to modify its arguments in place
    witness: Callable[[], list] | None = None   # concrete inputs satisfying the precondition, tried during replay
    exact_sqrt: bool = False  # np.sqrt of a plain non-square rational inside toqito returns the algebraic number (symbol s, s*s -> x)
    contracts: tuple = ()     # kernel contracts to assert at the kernel call ('eigh', 'svd', ...)

    def ident(self):
        return self.name + "|" + json.dumps(self.cfg, sort_keys=True, default=str)


def _default_post(res, exp, inputs):
    return eq(res, exp)


def _default_neg(exp):
    """a deliberately wrong oracle: rotate the cells (transposed index)"""
    if isinstance(exp, (list, tuple)):
        if len(exp) == 0:
            return None
        first = _default_neg(exp[0])
        if first is None:
            return None
        return type(exp)([first] + list(exp[1:]))
    if isinstance(exp, (bool, np.bool_)):
        return not bool(exp)
    if isinstance(exp, SymBool):
        return ~exp
    if hasattr(exp, "toarray"):
        exp = exp.toarray()
    a = np.asarray(exp, dtype=object) if is_symbolic(exp) else np.asarray(exp)
    if a.dtype == bool:
        return ~a
    if a.size < 2:
        if a.size == 1:
            b = a.copy()
            b.flat[0] = b.flat[0] + 1
            return b
        return None
    return np.roll(a.ravel(), 1).reshape(a.shape)


def _pc_and(pc):
    return [c for c in pc]


def run_obligation(ob: Obligation, seed=0):
    """returns a JSON-able record; never raises for failures of the code under test."""
    t0 = time.time()
    rec = {"name": ob.name, "cfg": ob.cfg, "status": "inconclusive", "paths": 0, "queries": 0,
           "solver_s": 0.0, "notes": [], "stubs": [], "neg_control": None, "reachable": None,
           "tv": None, "smt_assertions": 0}
    post = ob.post or _default_post
    inputs = ctx = None
    try:
        ctx = Ctx(ob.mode, ob.name)
        ctx.abs_fork = ob.abs_fork
        ctx.contracts = tuple(ob.contracts)
        ctx.exact_sqrt = ob.exact_sqrt
        with use_ctx(ctx), symbolic_mode(objzeros=ob.objzeros, rng=ob.rng, extra=ob.extra_patch):
            z3.set_param("smt.random_seed", seed % 1000)
            b = Builder(ctx)
            inputs = ob.build(b)
            if ob.assume:
                for a in ob.assume(inputs):
                    ctx.assume.append(a)
            def _one_path():
                work = copy_inputs(inputs)
                del _ARG_MUTATIONS[:]
                res = ob.call(work)
                ch = None if ob.mutable_inputs else (inputs_changed(work, inputs) or (_ARG_MUTATIONS[0] if _ARG_MUTATIONS else None))
                return _Mutated(ch, res) if ch else res
            paths, complete = explore(ctx, _one_path, max_paths=ob.max_paths,
                                      feas_timeout_ms=ob.feas_timeout_ms)
            rec["paths"] = len(paths)
            if not complete:
                rec["notes"].append(f"path cap {ob.max_paths} reached: inconclusive")
            all_ok = complete
            cand = None
            expected = None
            first_normal = None
            n_exc = 0
            for p in paths:
                if time.time() - t0 > ob.wall_cap_s:
                    rec["notes"].append("wall cap reached")
                    all_ok = False
                    break
                if p.exc is not None:
                    n_exc += 1
                    if ob.exc_post is None:
                        cond = SymBool(False)
                    else:
                        cond = ob.exc_post(p.exc, inputs)
                        cond = SymBool(cond) if not isinstance(cond, SymBool) else cond
                    what = f"exception {type(p.exc).__name__}: {str(p.exc)[:120]}"
                else:
                    if expected is None and ob.oracle is not None:
                        expected = ob.oracle(inputs)
                    if isinstance(p.result, _Mutated):
                        cond = SymBool(False)
                        what = f"the call modified its argument {p.result.which} in place"
                    else:
                        if first_normal is None:
                            first_normal = p
                        cond = post(p.result, expected, inputs)
                        cond = SymBool(cond) if not isinstance(cond, SymBool) else cond
                        what = "postcondition"
                goal = p.pc + [as_z3(~cond)]
                rec["smt_assertions"] = max(rec["smt_assertions"], len(goal) + len(ctx.side) + len(ctx.assume))
                r, model = ctx.check(goal, timeout_ms=ob.timeout_ms, cross=True)
                if r == "unsat":
                    continue
                if r == "sat" and ctx.mode == "lra" and ctx.mono and rec.get("refinements", 0) < 4 and len(ctx.mono) <= 600:
                    # candidate of the monomial abstraction: re-decide with the true products (bounded time)
                    r2, model2 = ctx.check_refined(goal, timeout_ms=min(15000, ob.timeout_ms))
                    rec["refinements"] = rec.get("refinements", 0) + 1
                    if r2 == "unsat":
                        rec["spurious_candidates_refuted"] = rec.get("spurious_candidates_refuted", 0) + 1
                        continue
                    if r2 == "sat":
                        model = model2
                all_ok = False
                if r == "unknown":
                    rec["notes"].append(f"solver unknown on {what} (path {p.decisions})")
                    continue
                if cand is None:
                    cand = (p, model, what)
            # reachability twin: some path must be satisfiable with post := false
            live = None
            for p in paths:
                r, _ = ctx.check(p.pc, timeout_ms=ob.timeout_ms)
                if r == "sat":
                    rec["reachable"] = True
                    if p.exc is None and not isinstance(p.result, _Mutated):
                        live = p
                        break
            if not rec["reachable"]:
                rec["reachable"] = False
                all_ok = False
                rec["notes"].append("vacuous: no satisfiable path condition")
            # negative control: wrong oracle must be refuted (on a live normal path)
            if ob.neg_control and live is not None and expected is not None:
                bad = (ob.neg or _default_neg)(expected)
                if bad is not None:
                    c = post(live.result, bad, inputs)
                    c = SymBool(c) if not isinstance(c, SymBool) else c
                    r, _ = ctx.check(live.pc + [as_z3(~c)], timeout_ms=ob.timeout_ms)
                    rec["neg_control"] = (r == "sat")
                    if r == "unsat":
                        all_ok = False
                        rec["notes"].append("negative control not refuted: check is vacuous")
            rec["n_exc_paths"] = n_exc
            rec["atoms"] = len(ctx.atoms)
            rec["queries"] = ctx.queries
            rec["solver_s"] = round(ctx.solver_s, 4)
            rec["stubs"] = sorted(ctx.stubs)
            rec["cross_solver"] = getattr(ctx, "xstats", None)
            rec["events"] = [list(map(str, e)) for e in ctx.events[:20]]
            cand_vals = None
            if cand is not None:
                p, model, what = cand
                cand_vals = [model_values(ctx, model)]
                rec["candidate"] = what
        # ---- outside symbolic mode from here on --------------------------------------------
        if cand is not None:
            rep = replay_candidates(ob, ctx, inputs, cand_vals, seed)
            if rep is not None:
                rec["status"] = "violation"
                rec["violation"] = rep
            else:
                rec["status"] = "error" if ob.exact else "inconclusive"
                rec["notes"].append("candidate counterexample did not reproduce on the real code")
        elif all_ok:
            rec["status"] = "discharged"
        if rec["status"] == "discharged" and ob.witness is not None:
            # concrete witnesses through the real code with plain numpy dtypes: catches what object arrays cannot show
            # (dtype casts, integer truncation) - a reproduced failure here is a violation found by the harness' own inputs
            try:
                for ninputs in ob.witness():
                    if ob.valid is not None and not ob.valid(ninputs):
                        continue
                    ok, detail = numeric_verdict(ob, ninputs)
                    if not ok:
                        rec["status"] = "violation"
                        rec["violation"] = {"source": "harness witness on plain numpy dtypes (symbolic execution discharged the obligation)",
                                            "inputs": jsonable(ninputs), **detail}
                        break
            except SymError:
                pass
        if rec["status"] == "inconclusive" and ob.witness is not None:
            # nothing was decided symbolically (path cap, solver unknown, candidate that does not reproduce): the harness' concrete
            # witnesses still go through the real code - a reproduced failure is a violation, a pass leaves the status inconclusive
            try:
                n_w = 0
                for ninputs in ob.witness():
                    if ob.valid is not None and not ob.valid(ninputs):
                        continue
                    ok, detail = numeric_verdict(ob, ninputs)
                    n_w += 1
                    if not ok:
                        rec["status"] = "violation"
                        rec["violation"] = {"source": "harness witness (symbolic execution was inconclusive)", "inputs": jsonable(ninputs), **detail}
                        break
                else:
                    rec["notes"].append(f"{n_w} harness witnesses pass on the real code")
            except SymError:
                pass
        if rec["status"] == "discharged" and ob.dtype_variants:
            # storage-type variants of a generic point through the real code on plain numpy arrays: object arrays cannot show
            # what a cast does (a real first operand deciding the result dtype, integer arrays truncating on assignment)
            try:
                for label, ninputs in dtype_variants(ob, ctx, inputs, seed):
                    ok, detail = numeric_verdict(ob, ninputs)
                    rec["dtype_variants"] = rec.get("dtype_variants", 0) + 1
                    if not ok:
                        rec["status"] = "violation"
                        rec["violation"] = {"source": f"storage-type variant of a generic point ({label}); symbolic execution on object arrays discharged the obligation",
                                            "inputs": jsonable(ninputs), **detail}
                        break
            except SymError:
                pass
        if ob.tv and rec["status"] in ("discharged", "inconclusive"):
            tv = translator_validation(ob, seed)
            rec["tv"] = tv if not isinstance(tv, dict) else False
            if isinstance(tv, dict):
                # the symbolic semantics and plain numpy disagree at a concrete point AND the property fails there on the real
                # code (e.g. a dtype cast that object arrays cannot show): a reproduced violation, not a harness problem
                rec["status"] = "violation"
                rec["violation"] = {"source": "translator-validation point: the real code violates the property where symbolic execution (object arrays) does not", **tv}
            elif tv is False:
                rec["status"] = "error"
                rec["notes"].append("translator validation mismatch (symnp on constants vs plain numpy)")
    except SymError as e:
        rec["status"] = "inconclusive"
        rec["notes"].append(f"SymError: {e}")
        rec["trace"] = traceback.format_exc()[-1500:]
        # the code could not be executed symbolically (it realised a symbolic value): nothing is proved, but generic points of
        # the symbolic inputs (opaque entries also as distinct complex numbers) and the harness' concrete witnesses are still run
        # through the real code so that a plain wrong answer is not missed
        if inputs is not None and ob.witness is None:
            try:
                rep = replay_candidates(ob, ctx, inputs, [], seed)
                if rep is not None:
                    rec["status"] = "violation"
                    rep["source"] = rep["source"].replace("after solver sat", "(symbolic execution was not possible)")
                    rec["violation"] = rep
            except Exception as e2:  # noqa: BLE001
                rec["notes"].append(f"generic-point fallback failed: {type(e2).__name__}: {e2}")
        if ob.witness is not None:
            try:
                for ninputs in ob.witness():
                    if ob.valid is not None and not ob.valid(ninputs):
                        continue
                    ok, detail = numeric_verdict(ob, ninputs)
                    if not ok:
                        rec["status"] = "violation"
                        rec["violation"] = {"source": "harness witness (symbolic execution was not possible)", "inputs": jsonable(ninputs), **detail}
                        break
            except Exception as e2:  # noqa: BLE001
                rec["notes"].append(f"witness fallback failed: {type(e2).__name__}: {e2}")
    except Exception as e:  # noqa: BLE001
        rec["status"] = "error"
        rec["notes"].append(f"harness exception {type(e).__name__}: {e}")
        rec["trace"] = traceback.format_exc()[-2500:]
    rec["wall_s"] = round(time.time() - t0, 3)
    return json.loads(json.dumps(rec, default=str))


class _Mutated:
    def __init__(self, which, result):
        self.which, self.result = which, result


# ---- argument guard: every call from a check into a toqito function snapshots its list / array arguments ----------
_ARG_MUTATIONS = []


def guard(f):
    """wrap a toqito function so that an in-place change of one of its list / ndarray arguments is recorded"""
    import functools
    if getattr(f, "_verif_guard", False):
        return f

    @functools.wraps(f)
    def w(*a, **k):
        sa, sk = copy_inputs(list(a)), copy_inputs(dict(k))
        try:
            return f(*a, **k)
        finally:      # also when the call is aborted (a captured Problem.solve, a symbolic-execution fork)
            ch = inputs_changed(list(a), sa, f"{f.__name__}() positional argument") or inputs_changed(dict(k), sk, f"{f.__name__}() keyword argument")
            if ch:
                _ARG_MUTATIONS.append(ch)
    w._verif_guard = True
    return w


def task_mutation_verdict(rec):
    """for tasks outside run_obligation: an argument changed in place during the task's guarded calls into toqito is a
    violation observed on the real code (the guard compares the real argument before and after the real call)"""
    if _ARG_MUTATIONS and rec.get("status") not in ("violation", "error"):
        rec["status"] = "violation"
        rec["violation"] = {"source": "argument guard: the real call changed one of its list / array arguments in place",
                            "inputs": jsonable(rec.get("cfg")), "mutated_argument": _ARG_MUTATIONS[0]}
    del _ARG_MUTATIONS[:]


def guard_module(mod):
    """guard every plain function a check module imported from toqito"""
    import inspect
    for name, val in list(vars(mod).items()):
        if inspect.isfunction(val) and (getattr(val, "__module__", "") or "").startswith("toqito."):
            setattr(mod, name, guard(val))


def numeric_run(ob, ninputs):
    """the real function on plain numbers, no proxies; returns (result, exc)"""
    try:
        return ob.call(ninputs), None
    except SymError:
        raise
    except Exception as e:  # noqa: BLE001
        return None, e


def numeric_verdict(ob, ninputs):
    """True = property holds at this concrete input; False = violated; also returns details"""
    post = ob.post or _default_post
    pristine = ninputs
    ninputs = copy_inputs(pristine)
    del _ARG_MUTATIONS[:]
    res, exc = numeric_run(ob, ninputs)
    if not ob.mutable_inputs:
        ch = inputs_changed(ninputs, pristine) or (_ARG_MUTATIONS[0] if _ARG_MUTATIONS else None)
        if ch:
            return False, {"mutated_argument": ch, "note": "the call modified its argument in place"}
    ninputs = pristine
    if exc is not None:
        if ob.exc_post is None:
            return False, {"exception": f"{type(exc).__name__}: {exc}"}
        ok = ob.exc_post(exc, ninputs)
        return bool(ok), {"exception": f"{type(exc).__name__}: {exc}"}
    exp = ob.oracle(ninputs) if ob.oracle is not None else None
    ok = post(res, exp, ninputs)
    return bool(ok), {"actual": jsonable(res), "expected": jsonable(exp)}


def replay_candidates(ob, ctx, inputs, cand_vals, seed):
    rnd = random.Random(seed + 17)
    tries = list(cand_vals)
    for _ in range(ob.genericity_tries):
        vals = {}
        for a in ctx.atoms:
            if a.kind == "var":
                vals[a.id] = Fraction(rnd.randint(-12, 12), 8)
        for a in ctx.atoms:
            if a.kind != "var":
                try:
                    vals[a.id] = a.evalf(vals) if a.evalf else 0
                except Exception:  # noqa: BLE001
                    vals[a.id] = 0
        tries.append(vals)
    extra = []
    if ob.witness is not None:
        try:
            extra = list(ob.witness())
        except Exception:  # noqa: BLE001
            extra = []
    for k, vals in enumerate(tries + extra):
        try:
            ninputs = to_numeric(inputs, vals, {}) if k < len(tries) else vals
            if ob.valid is not None and not ob.valid(ninputs):
                continue
            ok, detail = numeric_verdict(ob, ninputs)
        except SymError:
            raise
        except Exception as e:  # noqa: BLE001
            continue
        if not ok:
            return {"source": "solver model" if k < len(cand_vals) else ("generic point after solver sat" if k < len(tries) else "harness witness after solver sat"),
                    "inputs": jsonable(ninputs), **detail}
    if _has_elem(inputs):
        # opaque entries evaluated as distinct COMPLEX numbers
        for vals in tries[:2] or [{}]:
            try:
                ninputs = to_numeric(inputs, vals, {"__complex__": True})
                if ob.valid is not None and not ob.valid(ninputs):
                    continue
                ok, detail = numeric_verdict(ob, ninputs)
            except SymError:
                raise
            except Exception:  # noqa: BLE001
                continue
            if not ok:
                return {"source": "generic point with complex entries", "inputs": jsonable(ninputs), **detail}
    return None


def _has_elem(x):
    if isinstance(x, Elem):
        return True
    if isinstance(x, np.ndarray) and x.dtype == object:
        return any(isinstance(v, Elem) for v in x.flat)
    if isinstance(x, (list, tuple)):
        return any(_has_elem(v) for v in x)
    if isinstance(x, dict):
        return any(_has_elem(v) for v in x.values())
    return False


def _array_leaves(x, path=()):
    if isinstance(x, np.ndarray) and x.dtype.kind in "fc":
        yield path
    elif isinstance(x, (list, tuple)):
        for k, v in enumerate(x):
            yield from _array_leaves(v, path + (k,))
    elif isinstance(x, dict):
        for k, v in x.items():
            yield from _array_leaves(v, path + (k,))


def _replace_leaf(x, path, fn):
    if not path:
        return fn(x)
    k = path[0]
    if isinstance(x, dict):
        return {a: (_replace_leaf(b, path[1:], fn) if a == k else b) for a, b in x.items()}
    out = [(_replace_leaf(b, path[1:], fn) if a == k else b) for a, b in enumerate(x)]
    return tuple(out) if isinstance(x, tuple) else out


def _preconditions_hold(ob, ninputs):
    """numeric inputs are only used if the obligation's own precondition can be evaluated on them and holds"""
    try:
        if ob.valid is not None:
            return bool(ob.valid(ninputs))
        if ob.assume is None:
            return True
        for c in ob.assume(ninputs):
            if isinstance(c, SymBool):
                if c.const is not True:
                    return False
            elif not bool(c):
                return False
        return True
    except SymError:
        raise
    except Exception:  # noqa: BLE001
        return False


def _get_leaf(x, path):
    for k in path:
        x = x[k]
    return x


def dtype_variants(ob, ctx, inputs, seed):
    """(label, inputs) pairs: the SAME mathematical point stored differently.  (a) a generic rational point at which the first
    array operand is real (the atoms of its imaginary parts set to 0), that operand stored as float64; (b) a generic integer
    point, first operand stored as int64.  All other inputs are evaluated from the same atom values, so relations between
    inputs built from shared symbols are preserved; a variant is used only if the first operand really is real / integer at
    the point and the obligation's precondition holds there."""
    rnd = random.Random(seed + 23)

    def point(integer, zero_atoms=()):
        vals = {}
        for a in ctx.atoms:
            if a.kind == "var":
                vals[a.id] = Fraction(0) if a.id in zero_atoms else (Fraction(rnd.randint(-6, 6)) if integer else Fraction(rnd.randint(-12, 12), 4))
        for a in ctx.atoms:
            if a.kind != "var":
                try:
                    vals[a.id] = a.evalf(vals) if a.evalf else 0
                except Exception:  # noqa: BLE001
                    vals[a.id] = 0
        return vals
    try:
        base = to_numeric(inputs, point(False), {})
    except SymError:
        raise
    except Exception:  # noqa: BLE001
        return
    leaves = list(_array_leaves(base))
    if not leaves:
        return
    first = leaves[0]
    sym_first = _get_leaf(inputs, first)
    im_atoms = set()
    if isinstance(sym_first, np.ndarray) and sym_first.dtype == object:
        for v in sym_first.flat:
            if isinstance(v, Sym):
                im_atoms |= set(v.im.atoms())
    out = []
    for label, integer, zero in (("first array operand real at the point and stored with dtype float64", False, im_atoms),
                                 ("integer point, first array operand stored with dtype int64", True, im_atoms)):
        try:
            ni = to_numeric(inputs, point(integer, zero), {})
        except SymError:
            raise
        except Exception:  # noqa: BLE001
            continue
        arr = _get_leaf(ni, first)
        if not isinstance(arr, np.ndarray) or arr.dtype.kind not in "fc" or not np.all(np.isfinite(arr)):
            continue
        if np.iscomplexobj(arr) and np.any(arr.imag != 0):
            continue
        re = np.ascontiguousarray(np.real(arr), dtype=float)
        if integer:
            if np.any(re != np.rint(re)):
                continue
            re = re.astype(np.int64)
        elif arr.dtype.kind == "f":
            continue          # already a float64 array at generic points: nothing new to show
        ni = _replace_leaf(ni, first, lambda a, re=re: re)
        if _preconditions_hold(ob, ni):
            out.append((label, ni))
        if integer:
            # every array operand that is real and integer valued at the point stored as int64
            nj = ni
            for p in leaves[1:]:
                arr = _get_leaf(nj, p)
                if isinstance(arr, np.ndarray) and arr.dtype.kind in "fc" and np.all(np.isfinite(arr)) and not np.any(np.imag(arr) != 0) \
                        and not np.any(np.real(arr) != np.rint(np.real(arr))):
                    nj = _replace_leaf(nj, p, lambda a: np.real(a).astype(np.int64))
            if len(leaves) > 1 and _preconditions_hold(ob, nj):
                out.append(("integer point, every real integer-valued array operand stored with dtype int64", nj))
    yield from out


def translator_validation(ob, seed):
    """run the harness on exact rational constants through symnp and on floats through plain numpy"""
    try:
        ctx = Ctx(ob.mode, ob.name + "#tv")
        ctx.abs_fork = ob.abs_fork
        ctx.exact_sqrt = ob.exact_sqrt
        with use_ctx(ctx), symbolic_mode(objzeros=ob.objzeros, rng=ob.rng, extra=ob.extra_patch):
            b = Builder(ctx, concrete_seed=seed + 1)
            inputs = ob.build(b)
            paths, complete = explore(ctx, lambda: ob.call(copy_inputs(inputs)), max_paths=4)
            vals = model_values(ctx, None)
            p = _path_at(ctx, paths, vals)
            sres = to_numeric(p.result, vals, {}) if p.exc is None else None
            ninputs = to_numeric(inputs, vals, {})
        if ob.valid is not None and not ob.valid(ninputs):
            return None
        res, exc = numeric_run(ob, ninputs)
        if (exc is None) != (p.exc is None):
            # tolerance-dependent branches may differ on exact vs float arithmetic only at boundaries
            try:
                ok, detail = numeric_verdict(ob, ninputs)
                if not ok:
                    return {"inputs": jsonable(ninputs), **detail}
            except Exception:  # noqa: BLE001
                pass
            return False
        if exc is not None:
            same = type(exc) is type(p.exc)
        else:
            same = bool(eq(_strip(sres), _strip(res), 1e-6))
        if same:
            return True
        try:
            ok, detail = numeric_verdict(ob, ninputs)
        except Exception:  # noqa: BLE001
            return False
        if not ok:
            return {"inputs": jsonable(ninputs), **detail}
        return False
    except SymError:
        return None


def _path_at(ctx, paths, vals):
    """on constants a branch can still fork (a derived atom such as sqrt(13/4) is only constrained through an abstracted
    monomial): take the explored path whose condition holds at the concrete values of the atoms, not simply the first one"""
    if len(paths) == 1:
        return paths[0]
    try:
        subs = [(a.z3, z3.RealVal(str(Fraction(vals[a.id]).limit_denominator(10 ** 30)))) for a in ctx.atoms]
        for mono, t in ctx.mono.items():
            v = Fraction(1)
            for i in mono:
                v *= Fraction(vals[i]).limit_denominator(10 ** 30)
            subs.append((t, z3.RealVal(str(v))))
        for p in paths:
            if all(z3.is_true(z3.simplify(z3.substitute(c, *subs))) for c in p.pc):
                return p
    except Exception:  # noqa: BLE001
        pass
    return paths[0]


def _strip(x):
    if isinstance(x, (list, tuple)):
        return [_strip(v) for v in x]
    if hasattr(x, "toarray"):
        return x.toarray()
    if isinstance(x, SymBool):
        return x.const
    return x


# ----------------------------------------------------------------------------------------------
# replay files
# ----------------------------------------------------------------------------------------------
def write_replay(verif_dir, prop, rec):
    h = hashlib.sha256((rec["name"] + json.dumps(rec["cfg"], sort_keys=True, default=str)).encode()).hexdigest()[:12]
    d = os.path.join(verif_dir, "replays")
    os.makedirs(d, exist_ok=True)
    path = os.path.join(d, f"{prop}-{h}.json")
    with open(path, "w") as f:
        json.dump({"property": prop, "obligation": rec["name"], "cfg": rec["cfg"],
                   "violation": rec.get("violation")}, f, indent=1, default=str)
    return path
