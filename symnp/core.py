"""symnp core: solver-backed scalars, path exploration, discharge.

A `Sym` is a complex number whose real and imaginary parts are polynomials (exact rational
coefficients) over *atoms*.  An atom is a solver variable: either a free input variable or a
derived symbol (sqrt, abs, reciprocal, kernel output = uninterpreted function value) that comes
with definitional side constraints.  Polynomials are kept in a canonical sum-of-monomials form;
when they are handed to z3 every monomial of degree >= 2 becomes, in mode "lra" (monomial
abstraction), one fresh real variable, or, in mode "nra", the genuine product.  `unsat` in the
abstraction implies `unsat` over the reals (the abstraction only forgets relations between
monomials), so it is sound for proving; a `sat` answer is a candidate that must be replayed.

`SymBool.__bool__` forks the path (decision replay DFS, see `explore`).
"""
from __future__ import annotations

import math
import os
import time
from fractions import Fraction

import numpy as np
import z3


class SymError(Exception):
    """The code under test did something the symbolic scalars cannot model."""


class SolverDisagreement(Exception):
    """two solvers returned sat / unsat for the same query: a harness error, never a violation"""


class Realization(SymError):
    """A symbolic value was forced to a concrete float/int (C boundary)."""


# ----------------------------------------------------------------------------------------------
# context
# ----------------------------------------------------------------------------------------------
class Atom:
    __slots__ = ("id", "name", "kind", "z3", "info", "evalf", "scoped")

    def __init__(self, id, name, kind, z3v, info=None, evalf=None):
        self.id, self.name, self.kind, self.z3, self.info, self.evalf = id, name, kind, z3v, info, evalf
        self.scoped = None   # constraints that hold only where the atom is used (domain assumptions), re-added per path


XCHECK_BUDGET = int(os.environ.get("VERIF_XCHECK_BUDGET", "24"))


class Ctx:
    """Everything belonging to one obligation: atoms, side constraints, assumptions, counters."""

    def __init__(self, mode="lra", name=""):
        self.mode = mode
        self.name = name
        self.atoms: list[Atom] = []
        self.by_key: dict = {}
        self.side: list = []  # definitional constraints (always true), z3 BoolRef
        self.assume: list = []  # harness preconditions
        self.mono: dict = {}
        self.stubs: set = set()
        self.queries = 0
        self.solver_s = 0.0
        self.explorer = None
        self.fresh_counter = 0
        self.rng_log = []
        self.abs_fork = False
        self.events = []

    # -- atoms ---------------------------------------------------------------------------------
    def scope(self, atom, constraints=None):
        """domain assumptions of a partial operation (sqrt radicand >= 0, divisor != 0) hold on the paths that
        perform the operation, not globally: they go to the path condition (or to `assume` outside explore)."""
        if constraints is not None:
            atom.scoped = list(constraints)
        if not atom.scoped:
            return
        ex = self.explorer
        if ex is not None:
            if atom.id not in ex.active:
                ex.active.add(atom.id)
                ex.pc.extend(atom.scoped)
        else:
            if ("scoped", atom.id) not in self.by_key:
                self.by_key[("scoped", atom.id)] = True
                self.assume.extend(atom.scoped)

    def new_atom(self, name, kind="var", key=None, info=None, evalf=None):
        if key is not None and key in self.by_key:
            a = self.by_key[key]
            if a.scoped:
                self.scope(a)
            return a
        aid = len(self.atoms)
        a = Atom(aid, name, kind, z3.Real(f"{name}#{aid}" if kind != "var" else name), info, evalf)
        self.atoms.append(a)
        if key is not None:
            self.by_key[key] = a
        return a

    def var(self, name):
        """A free real input variable."""
        a = self.new_atom(name, "var", key=("var", name))
        return Sym(Poly.atom(a.id))

    def cvar(self, name, real=False):
        if real:
            return self.var(name)
        return Sym(Poly.atom(self.new_atom(name + ".re", "var", key=("var", name + ".re")).id),
                   Poly.atom(self.new_atom(name + ".im", "var", key=("var", name + ".im")).id))

    def mono_z3(self, mono):
        if not mono:
            return z3.RealVal(1)
        if len(mono) == 1:
            return self.atoms[mono[0]].z3
        t = self.mono.get(mono)
        if t is None:
            if self.mode == "lra":
                t = z3.Real("m" + "_".join(str(i) for i in mono))
                # x^2k >= 0 is the one sign fact we keep about a monomial
                even = all(mono.count(i) % 2 == 0 for i in set(mono))
                self.mono[mono] = t
                if even:
                    self.side.append(t >= 0)
            else:
                t = self.atoms[mono[0]].z3
                for i in mono[1:]:
                    t = t * self.atoms[i].z3
                self.mono[mono] = t
        return t

    def check_refined(self, extra, timeout_ms=15000):
        """the same query with every abstracted monomial replaced by the true product of its atoms (non-linear real arithmetic):
        'unsat' refutes a spurious candidate of the monomial abstraction, 'sat' gives a model that respects the products"""
        if self.mode != "lra" or not self.mono:
            return "unknown", None
        subs = []
        for mono, t in self.mono.items():
            prod = self.atoms[mono[0]].z3
            for i in mono[1:]:
                prod = prod * self.atoms[i].z3
            subs.append((t, prod))
        s = self.solver(timeout_ms)
        for c in list(self.side) + [as_z3(c) for c in self.assume] + [as_z3(e) for e in extra]:
            s.add(z3.substitute(c, *subs))
        t0 = time.time()
        r = s.check()
        self.solver_s += time.time() - t0
        self.queries += 1
        rs = str(r)
        return rs, (s.model() if rs == "sat" else None)

    # -- solver ---------------------------------------------------------------------------------
    def solver(self, timeout_ms=None):
        s = z3.Solver()
        if timeout_ms:
            s.set("timeout", int(timeout_ms))
        return s

    def check(self, extra, timeout_ms=60000, want_model=False, cross=False):
        """satisfiability of side /\\ assume /\\ extra; returns ('sat'|'unsat'|'unknown', model).
        cross=True (and VERIF_XCHECK=1): the same query is dumped as SMT-LIB2 and decided again by an independent
        solver binary (z3 4.8.12, and cvc5 where the logic allows); a sat/unsat disagreement raises SolverDisagreement."""
        s = self.solver(timeout_ms)
        ex = [as_z3(e) for e in extra]
        for c in self.side:
            s.add(c)
        for c in self.assume:
            s.add(as_z3(c))
        for c in ex:
            s.add(c)
        t0 = time.time()
        r = s.check()
        self.solver_s += time.time() - t0
        self.queries += 1
        rs = str(r)
        if cross and rs in ("sat", "unsat") and os.environ.get("VERIF_XCHECK") == "1":
            # per obligation the first XCHECK_BUDGET goal queries are re-decided by the two other solvers (each run costs up to
            # 20 s per solver; an obligation with 256 paths would otherwise spend most of an hour in subprocess start-up)
            self.xdone = getattr(self, "xdone", 0) + 1
            if self.xdone <= XCHECK_BUDGET:
                self._cross(s, rs)
            else:
                self.xstats = getattr(self, "xstats", {"z3-4.8.12": {"agree": 0, "unknown": 0}, "cvc5": {"agree": 0, "unknown": 0}})
                self.xstats["skipped_over_budget"] = self.xstats.get("skipped_over_budget", 0) + 1
        return rs, (s.model() if rs == "sat" else None)

    def _cross(self, s, rs):
        import subprocess
        import tempfile
        txt = s.to_smt2()
        self.xstats = getattr(self, "xstats", {"z3-4.8.12": {"agree": 0, "unknown": 0}, "cvc5": {"agree": 0, "unknown": 0}})
        for name, cmd, use_file in (("z3-4.8.12", ["/usr/bin/z3", "-in", "-T:20"], False), ("cvc5", ["cvc5", "--tlimit=20000"], True)):
            try:
                if use_file:
                    with tempfile.NamedTemporaryFile("w", suffix=".smt2", delete=False) as f:
                        f.write(txt)
                        fn = f.name
                    try:
                        out = subprocess.run(cmd + [fn], capture_output=True, text=True, timeout=40).stdout
                    finally:
                        os.unlink(fn)
                else:
                    out = subprocess.run(cmd, input=txt, capture_output=True, text=True, timeout=40).stdout
            except Exception:  # noqa: BLE001
                out = "unknown"
            first = [ln.strip() for ln in out.splitlines() if ln.strip()]
            verdict = first[0] if first else "unknown"
            if "(error" in out:
                verdict = "unknown"
            if verdict in ("sat", "unsat"):
                if verdict != rs:
                    raise SolverDisagreement(f"{name} says {verdict}, z3 5.1.0 says {rs}")
                self.xstats[name]["agree"] += 1
            else:
                self.xstats[name]["unknown"] += 1


_CTX: list[Ctx] = []


def cur() -> Ctx:
    if not _CTX:
        raise SymError("no active symnp context")
    return _CTX[-1]


class use_ctx:
    def __init__(self, ctx):
        self.ctx = ctx

    def __enter__(self):
        _CTX.append(self.ctx)
        return self.ctx

    def __exit__(self, *a):
        _CTX.pop()


# ----------------------------------------------------------------------------------------------
# polynomials
# ----------------------------------------------------------------------------------------------
def _frac(x):
    if isinstance(x, Fraction):
        return x
    if isinstance(x, (bool, np.bool_)):
        return Fraction(int(x))
    if isinstance(x, (int, np.integer)):
        return Fraction(int(x))
    if isinstance(x, (float, np.floating)):
        if not math.isfinite(float(x)):
            raise SymError(f"non-finite constant {x}")
        return Fraction(float(x))
    raise TypeError(type(x))


class Poly:
    __slots__ = ("t", "_z3", "_key")

    def __init__(self, t):
        self.t = t
        self._z3 = None
        self._key = None

    @staticmethod
    def const(c):
        c = _frac(c)
        return Poly({(): c} if c != 0 else {})

    @staticmethod
    def atom(aid):
        return Poly({(aid,): Fraction(1)})

    def is_zero(self):
        return not self.t

    def is_const(self):
        return not self.t or (len(self.t) == 1 and () in self.t)

    def cval(self):
        return self.t.get((), Fraction(0))

    def key(self):
        if self._key is None:
            self._key = tuple(sorted(self.t.items()))
        return self._key

    def __add__(self, o):
        if not o.t:
            return self
        if not self.t:
            return o
        t = dict(self.t)
        for m, c in o.t.items():
            v = t.get(m, 0) + c
            if v == 0:
                t.pop(m, None)
            else:
                t[m] = v
        return Poly(t)

    def __neg__(self):
        return Poly({m: -c for m, c in self.t.items()})

    def __sub__(self, o):
        return self + (-o)

    def scale(self, c):
        if c == 0:
            return ZERO
        if c == 1:
            return self
        return Poly({m: v * c for m, v in self.t.items()})

    def __mul__(self, o):
        if not self.t or not o.t:
            return ZERO
        if o.is_const():
            return self.scale(o.cval())
        if self.is_const():
            return o.scale(self.cval())
        out: dict = {}
        rew = cur().by_key.get("rewrites")
        for m1, c1 in self.t.items():
            for m2, c2 in o.t.items():
                m = tuple(sorted(m1 + m2))
                c = c1 * c2
                if rew:
                    p = _rewrite(m, c, rew)
                    if p is not None:
                        for mm, cc in p.t.items():
                            v = out.get(mm, 0) + cc
                            if v == 0:
                                out.pop(mm, None)
                            else:
                                out[mm] = v
                        continue
                v = out.get(m, 0) + c
                if v == 0:
                    out.pop(m, None)
                else:
                    out[m] = v
        return Poly(out)

    def atoms(self):
        s = set()
        for m in self.t:
            s.update(m)
        return s

    def degree(self):
        return max((len(m) for m in self.t), default=0)

    def to_z3(self, ctx=None):
        if self._z3 is not None:
            return self._z3
        ctx = ctx or cur()
        terms = []
        for m, c in self.t.items():
            cz = z3.RealVal(str(c)) if c.denominator != 1 else z3.RealVal(c.numerator)
            if not m:
                terms.append(cz)
            elif c == 1:
                terms.append(ctx.mono_z3(m))
            else:
                terms.append(cz * ctx.mono_z3(m))
        if not terms:
            r = z3.RealVal(0)
        elif len(terms) == 1:
            r = terms[0]
        else:
            r = z3.Sum(terms)
        self._z3 = r
        return r

    def evalf(self, vals):
        """numeric value given atom values (dict id -> float/Fraction)."""
        tot = 0
        for m, c in self.t.items():
            p = c
            for a in m:
                p = p * vals[a]
            tot = tot + p
        return tot

    def __repr__(self):
        if not self.t:
            return "0"
        names = cur().atoms if _CTX else None
        parts = []
        for m, c in sorted(self.t.items()):
            ms = "*".join(names[i].name if names else f"a{i}" for i in m)
            parts.append(f"{c}" + ("*" + ms if ms else ""))
        return " + ".join(parts)


def _sum_of_squares(p):
    return all(c > 0 and all(m.count(i) % 2 == 0 for i in set(m)) for m, c in p.t.items())


ZERO = Poly({})
ONE = Poly({(): Fraction(1)})


def _rewrite(m, c, rew):
    """apply s*s -> radicand for registered sqrt-like atoms; returns Poly or None if unchanged."""
    for a in set(m):
        if a in rew and m.count(a) >= 2:
            rest = list(m)
            rest.remove(a)
            rest.remove(a)
            base = Poly({tuple(rest): c})
            return base * rew[a]
    return None


# ----------------------------------------------------------------------------------------------
# booleans
# ----------------------------------------------------------------------------------------------
def as_z3(b):
    if isinstance(b, SymBool):
        return b.z3 if b.const is None else z3.BoolVal(b.const)
    if isinstance(b, (bool, np.bool_)):
        return z3.BoolVal(bool(b))
    return b


class SymBool:
    __slots__ = ("const", "z3")
    __array_priority__ = 1000

    def __init__(self, v):
        if isinstance(v, (bool, np.bool_)):
            self.const, self.z3 = bool(v), None
        elif isinstance(v, SymBool):
            self.const, self.z3 = v.const, v.z3
        else:
            if z3.is_true(v):
                self.const, self.z3 = True, None
            elif z3.is_false(v):
                self.const, self.z3 = False, None
            else:
                self.const, self.z3 = None, v

    def __bool__(self):
        if self.const is not None:
            return self.const
        ex = cur().explorer
        if ex is None:
            raise SymError("symbolic branch outside explore()")
        return ex.decide(self.z3)

    def _bin(self, o, f, unit, absorb):
        o = SymBool(o) if not isinstance(o, SymBool) else o
        for x, y in ((self, o), (o, self)):
            if x.const is not None:
                return SymBool(absorb) if x.const == absorb else y
        return SymBool(f(self.z3, o.z3))

    def __and__(self, o):
        return self._bin(o, z3.And, True, False)

    __rand__ = __and__

    def __or__(self, o):
        return self._bin(o, z3.Or, False, True)

    __ror__ = __or__

    def __invert__(self):
        if self.const is not None:
            return SymBool(not self.const)
        return SymBool(z3.Not(self.z3))

    def __eq__(self, o):
        o = SymBool(o)
        if self.const is not None and o.const is not None:
            return SymBool(self.const == o.const)
        return SymBool(as_z3(self) == as_z3(o))

    def __ne__(self, o):
        return ~(self == o)

    __hash__ = object.__hash__

    def logical_not(self):
        return ~self

    # truth values used as numbers (numpy sums / products of boolean object arrays)
    def __add__(self, o):
        return lift(self) + o

    __radd__ = __add__

    def __mul__(self, o):
        return lift(self) * o

    __rmul__ = __mul__

    def __sub__(self, o):
        return lift(self) - o

    def __rsub__(self, o):
        return o - lift(self)

    def __truediv__(self, o):
        return lift(self) / o

    def __repr__(self):
        return f"SymBool({self.const if self.const is not None else self.z3})"


def And(*bs):
    r = SymBool(True)
    for b in bs:
        r = r & b
    return r


def Or(*bs):
    r = SymBool(False)
    for b in bs:
        r = r | b
    return r


def Not(b):
    return ~SymBool(b)


# ----------------------------------------------------------------------------------------------
# scalars
# ----------------------------------------------------------------------------------------------
_NUM = (int, float, complex, Fraction, np.number, bool, np.bool_)


def lift(x):
    if isinstance(x, Sym):
        return x
    if isinstance(x, (complex, np.complexfloating)):
        return Sym(Poly.const(x.real), Poly.const(x.imag))
    if isinstance(x, _NUM):
        return Sym(Poly.const(x))
    if isinstance(x, SymBool):
        # booleans used as numbers (e.g. predicate values) : ite(b,1,0)
        if x.const is not None:
            return Sym(Poly.const(int(x.const)))
        c = cur()
        a = c.new_atom("b2r", "ite", key=("b2r", x.z3.get_id()))
        if a.info is None:
            a.info = True
            c.side.append(z3.If(x.z3, a.z3 == 1, a.z3 == 0))
        return Sym(Poly.atom(a.id))
    if isinstance(x, np.ndarray) and x.ndim == 0:
        return lift(x[()])
    raise TypeError(f"cannot lift {type(x).__name__} into Sym")


class Sym:
    __slots__ = ("re", "im")
    __array_priority__ = 1000

    def __init__(self, re, im=ZERO):
        self.re, self.im = re, im

    # numpy scalar / array on the left: route through object arrays of Sym
    def __array_ufunc__(self, ufunc, method, *inputs, out=None, **kwargs):
        from .array import as0d, unwrap
        conv = [as0d(x) if isinstance(x, (Sym, SymBool)) else x for x in inputs]
        if out is not None:
            kwargs["out"] = out
        return unwrap(getattr(ufunc, method)(*conv, **kwargs))

    # -- structure -------------------------------------------------------------------------
    @property
    def real(self):
        return Sym(self.re)

    @property
    def imag(self):
        return Sym(self.im)

    def conjugate(self):
        return Sym(self.re, -self.im) if self.im.t else self

    conj = conjugate

    def is_const(self):
        return self.re.is_const() and self.im.is_const()

    def is_real(self):
        return self.im.is_zero()

    def cval(self):
        if not self.is_const():
            raise Realization("symbolic value realised")
        if self.im.is_zero():
            return self.re.cval()
        return complex(self.re.cval(), self.im.cval())

    def key(self):
        return (self.re.key(), self.im.key())

    @property
    def dtype(self):  # some numpy helpers ask
        return np.dtype(object)

    # -- arithmetic -----------------------------------------------------------------------
    def __add__(self, o):
        try:
            o = lift(o)
        except TypeError:
            return NotImplemented
        return Sym(self.re + o.re, self.im + o.im)

    __radd__ = __add__

    def __neg__(self):
        return Sym(-self.re, -self.im)

    def __pos__(self):
        return self

    def __sub__(self, o):
        try:
            o = lift(o)
        except TypeError:
            return NotImplemented
        return Sym(self.re - o.re, self.im - o.im)

    def __rsub__(self, o):
        try:
            o = lift(o)
        except TypeError:
            return NotImplemented
        return Sym(o.re - self.re, o.im - self.im)

    def __mul__(self, o):
        try:
            o = lift(o)
        except TypeError:
            return NotImplemented
        if not o.im.t and not self.im.t:
            return Sym(self.re * o.re)
        return Sym(self.re * o.re - self.im * o.im, self.re * o.im + self.im * o.re)

    __rmul__ = __mul__

    def recip(self):
        if self.is_const():
            v = self.cval()
            if v == 0:
                raise ZeroDivisionError("division by exact zero")
            if isinstance(v, complex):
                d = Fraction(v.real) ** 2 + Fraction(v.imag) ** 2
                return Sym(Poly.const(Fraction(v.real) / d), Poly.const(-Fraction(v.imag) / d))
            return Sym(Poly.const(1 / v))
        c = cur()
        if self.im.t:
            n2 = Sym(self.re * self.re + self.im * self.im)
            return self.conjugate() * n2.recip()
        a = c.new_atom("inv", "inv", key=("inv", self.re.key()))
        if a.info is None:
            a.info = self.re
            p = self.re
            a.evalf = lambda vals, p=p: 1 / p.evalf(vals)
            # t * x = 1 (division by zero is outside the model: numpy would give inf/nan)
            c.scope(a, [(Poly.atom(a.id) * self.re).to_z3(c) == 1, self.re.to_z3(c) != 0])
            rew = c.by_key.setdefault("rewrites", {})
            c.stubs.add("division: t = 1/x modelled as t*x = 1 with x != 0 assumed on the paths that divide")
        return Sym(Poly.atom(a.id))

    def __truediv__(self, o):
        try:
            o = lift(o)
        except TypeError:
            return NotImplemented
        return self * o.recip()

    def __rtruediv__(self, o):
        try:
            o = lift(o)
        except TypeError:
            return NotImplemented
        return o * self.recip()

    def __pow__(self, n):
        if isinstance(n, Sym):
            if not n.is_const():
                raise SymError("symbolic exponent")
            n = n.cval()
        if isinstance(n, (float, np.floating, Fraction)) and Fraction(n).denominator == 1:
            n = int(n)
        if isinstance(n, (int, np.integer)):
            n = int(n)
            if n < 0:
                return (self ** (-n)).recip()
            r = Sym(ONE)
            b = self
            while n:
                if n & 1:
                    r = r * b
                b = b * b
                n >>= 1
            return r
        if Fraction(n) == Fraction(1, 2):
            return self.sqrt()
        if Fraction(n) == Fraction(-1, 2):
            return self.sqrt().recip()
        raise SymError(f"power {n} not modelled")

    def __rpow__(self, b):
        if self.is_const():
            return b ** self.cval()
        raise SymError("symbolic exponent")

    def sqrt(self):
        c = cur()
        if self.im.t:
            raise SymError("sqrt of complex symbolic value")
        if self.re.is_const():
            v = self.re.cval()
            if v >= 0:
                n, d = v.numerator, v.denominator
                rn, rd = math.isqrt(n), math.isqrt(d)
                if rn * rn == n and rd * rd == d:
                    return Sym(Poly.const(Fraction(rn, rd)))
        a = c.new_atom("sqrt", "sqrt", key=("sqrt", self.re.key()))
        if a.info is None:
            a.info = self.re
            p = self.re
            a.evalf = lambda vals, p=p: math.sqrt(max(0.0, float(p.evalf(vals))))
            rew = c.by_key.setdefault("rewrites", {})
            rew[a.id] = self.re
            c.side.append(a.z3 >= 0)
            sc = []
            if not _sum_of_squares(self.re):
                sc.append(self.re.to_z3(c) >= 0)  # real sqrt: the radicand is non-negative on the paths that take the root
            if c.mode == "nra":
                sc.append(a.z3 * a.z3 == self.re.to_z3(c))
            c.scope(a, sc)
            c.stubs.add("sqrt(x): symbol s >= 0 with s*s rewritten to x; x >= 0 assumed on the paths that take the root (numpy would return nan)")
        return Sym(Poly.atom(a.id))

    def __abs__(self):
        c = cur()
        if self.is_const():
            v = self.cval()
            if isinstance(v, complex):
                return Sym(Poly.const(Fraction(v.real) ** 2 + Fraction(v.imag) ** 2)).sqrt()
            return Sym(Poly.const(abs(v)))
        if not self.im.t and getattr(c, "abs_fork", False) and c.explorer is not None:
            return self if bool(self >= 0) else -self
        if not self.im.t:
            # normalise sign so that |x| and |-x| share the atom
            k = self.re.key()
            k2 = (-self.re).key()
            p = self.re if k <= k2 else -self.re
            a = c.new_atom("abs", "abs", key=("abs", p.key()))
            if a.info is None:
                a.info = p
                a.evalf = lambda vals, p=p: abs(p.evalf(vals))
                pz = p.to_z3(c)
                c.side.append(z3.And(a.z3 >= 0, z3.Or(a.z3 == pz, a.z3 == -pz)))
                rew = c.by_key.setdefault("rewrites", {})
                rew[a.id] = p * p
            return Sym(Poly.atom(a.id))
        n2 = self.re * self.re + self.im * self.im
        a = c.new_atom("cabs", "cabs", key=("cabs", n2.key(), self.re.key() if self.re.key() <= (-self.re).key() else (-self.re).key()))
        if a.info is None:
            a.info = n2
            a.evalf = lambda vals, p=n2: math.sqrt(max(0.0, float(p.evalf(vals))))
            rew = c.by_key.setdefault("rewrites", {})
            rew[a.id] = n2
            rez, imz = self.re.to_z3(c), self.im.to_z3(c)
            c.side.append(z3.And(a.z3 >= rez, a.z3 >= -rez, a.z3 >= imz, a.z3 >= -imz))
            ar = abs(Sym(self.re))
            ai = abs(Sym(self.im))
            c.side.append(a.z3 <= ar.re.to_z3(c) + ai.re.to_z3(c))
            if c.mode == "nra":
                c.side.append(a.z3 * a.z3 == n2.to_z3(c))
        return Sym(Poly.atom(a.id))

    # numpy object loops call these method names
    def rint(self):
        cur().stubs.add("np.round/rint on a symbolic value: modelled as identity (rounding outside the claim)")
        return self

    def __round__(self, n=None):
        return self.rint()

    def _uf1(self, fname, real_only=True):
        """elementary function as an uninterpreted unary function (congruent on the normal form)."""
        c = cur()
        if self.is_const() and not self.im.t:
            f = getattr(math, fname)
            return Sym(Poly.const(f(float(self.re.cval()))))
        if self.im.t and real_only:
            raise SymError(f"{fname} of complex symbolic value")
        a = c.new_atom(fname, "uf", key=(fname, self.key()))
        if a.info is None:
            a.info = self
            p = self.re
            a.evalf = lambda vals, p=p, f=getattr(math, fname): f(float(p.evalf(vals)))
            c.stubs.add(f"{fname}(x): uninterpreted function of the normal form of x")
        return Sym(Poly.atom(a.id))

    def log2(self):
        return self._uf1("log2")

    def log(self):
        return self._uf1("log")

    def exp(self):
        return self._uf1("exp")

    def cos(self):
        return self._uf1("cos")

    def sin(self):
        return self._uf1("sin")

    def arccos(self):
        return self._uf1("acos")

    def sign(self):
        if self.im.t:
            raise SymError("sign of complex")
        if self > 0:
            return Sym(ONE)
        if self < 0:
            return Sym(-ONE)
        return Sym(ZERO)

    # -- comparisons ----------------------------------------------------------------------
    def _cmp(self, o, op):
        if isinstance(o, (float, np.floating)) and math.isinf(float(o)):
            # x op +-inf for a finite real x
            pos = float(o) > 0
            return SymBool({"<": pos, "<=": pos, ">": not pos, ">=": not pos}[op])
        try:
            o = lift(o)
        except TypeError:
            return NotImplemented
        d = self - o
        if d.im.t:
            raise SymError("ordering comparison of complex symbolic values")
        p = d.re
        if p.is_const():
            v = p.cval()
            return SymBool({"<": v < 0, "<=": v <= 0, ">": v > 0, ">=": v >= 0}[op])
        # normalise to p op 0
        z = p.to_z3()
        return SymBool({"<": z < 0, "<=": z <= 0, ">": z > 0, ">=": z >= 0}[op])

    def __lt__(self, o):
        return self._cmp(o, "<")

    def __le__(self, o):
        return self._cmp(o, "<=")

    def __gt__(self, o):
        return self._cmp(o, ">")

    def __ge__(self, o):
        return self._cmp(o, ">=")

    def eq(self, o):
        o = lift(o)
        d = self - o
        r = SymBool(True)
        for p in (d.re, d.im):
            if p.is_const():
                if p.cval() != 0:
                    return SymBool(False)
            else:
                r = r & SymBool(p.to_z3() == 0)
        return r

    def eq_solver(self, o):
        """equality left entirely to the solver: both sides are handed over as separate terms"""
        o = lift(o)
        if self.is_const() and o.is_const():
            return SymBool(self.cval() == o.cval())
        conj = [self.re.to_z3() == o.re.to_z3()]
        if self.im.t or o.im.t:
            conj.append(self.im.to_z3() == o.im.to_z3())
        return SymBool(z3.And(*conj) if len(conj) > 1 else conj[0])

    def __eq__(self, o):
        try:
            return self.eq(o)
        except TypeError:
            return NotImplemented

    def __ne__(self, o):
        try:
            return ~self.eq(o)
        except TypeError:
            return NotImplemented

    __hash__ = object.__hash__

    # -- realisation ----------------------------------------------------------------------
    def __float__(self):
        v = self.cval()
        if isinstance(v, complex):
            raise TypeError("complex Sym to float")
        return float(v)

    def __complex__(self):
        return complex(self.cval())

    def __int__(self):
        v = self.cval()
        return int(v)

    def __index__(self):
        v = self.cval()
        if isinstance(v, Fraction) and v.denominator == 1:
            return int(v)
        raise TypeError("non-integer Sym used as index")

    def __bool__(self):
        return bool(self != 0)

    def __repr__(self):
        if not self.im.t:
            return f"Sym({self.re!r})"
        return f"Sym({self.re!r} + i*({self.im!r}))"

    # -- to solver ------------------------------------------------------------------------
    def z3re(self):
        return self.re.to_z3()

    def z3im(self):
        return self.im.to_z3()

    def evalf(self, vals):
        r, i = self.re.evalf(vals), self.im.evalf(vals)
        if self.im.t:
            return complex(float(r), float(i))
        return float(r)


# ----------------------------------------------------------------------------------------------
# opaque elements (uninterpreted sort) for pure gather code
# ----------------------------------------------------------------------------------------------
_ELEM_SORT = z3.DeclareSort("Elem")


class Elem:
    """An entry of an uninterpreted sort: may be moved, copied, compared for identity - nothing else."""
    __slots__ = ("name", "z3")

    def __init__(self, name):
        self.name = name
        self.z3 = z3.Const(name, _ELEM_SORT)

    def _no(self, *a, **k):
        raise SymError(f"arithmetic on an opaque entry {self.name}: the code is not a pure relabelling")

    __add__ = __radd__ = __sub__ = __rsub__ = __mul__ = __rmul__ = __truediv__ = __neg__ = _no
    conjugate = _no
    __abs__ = _no

    def __repr__(self):
        return self.name


# ----------------------------------------------------------------------------------------------
# path exploration
# ----------------------------------------------------------------------------------------------
class PathLimit(SymError):
    pass


class Explorer:
    def __init__(self, ctx, prefix, feas_timeout_ms=2000, prune=True):
        self.ctx = ctx
        self.prefix = list(prefix)
        self.pos = 0
        self.pc = []
        self.pending = []
        self.active = set()
        self.feas_timeout_ms = feas_timeout_ms
        self.prune = prune
        self.unknown_branches = 0

    def _feasible(self, cond):
        r, _ = self.ctx.check(self.pc + [cond], timeout_ms=self.feas_timeout_ms)
        if r == "unknown":
            self.unknown_branches += 1
        return r != "unsat"

    def decide(self, cond):
        i = self.pos
        self.pos += 1
        if i < len(self.prefix):
            d = self.prefix[i]
        else:
            if self.prune:
                t_ok = self._feasible(cond)
                f_ok = self._feasible(z3.Not(cond))
            else:
                t_ok = f_ok = True
            if t_ok and f_ok:
                d = True
                self.pending.append(self.prefix[:i] + [False])
            elif t_ok:
                d = True
            elif f_ok:
                d = False
            else:
                # the path condition itself became infeasible (only with unknowns earlier)
                d = True
            self.prefix.append(d)
        self.pc.append(cond if d else z3.Not(cond))
        return d


class Path:
    def __init__(self, pc, result, exc, decisions):
        self.pc, self.result, self.exc, self.decisions = pc, result, exc, decisions

    def __repr__(self):
        return f"Path(dec={self.decisions}, exc={type(self.exc).__name__ if self.exc else None})"


def explore(ctx, fn, max_paths=512, prune=True, feas_timeout_ms=2000):
    """Run fn() once per feasible path. Returns (paths, complete?)."""
    paths = []
    stack = [[]]
    complete = True
    while stack:
        if len(paths) >= max_paths:
            complete = False
            break
        prefix = stack.pop()
        ex = Explorer(ctx, prefix, feas_timeout_ms, prune)
        ctx.explorer = ex
        ctx.fresh_counter = 0
        try:
            try:
                res, exc = fn(), None
            except SymError:
                raise
            except Exception as e:  # noqa: BLE001 - exceptions of the code under test are results
                res, exc = None, e
        finally:
            ctx.explorer = None
        paths.append(Path(ex.pc, res, exc, ex.prefix))
        stack.extend(ex.pending)
    return paths, complete


# ----------------------------------------------------------------------------------------------
# model -> numbers
# ----------------------------------------------------------------------------------------------
def model_values(ctx, model, default=0):
    """Concrete values (float) for all *free* variables from a z3 model; derived atoms recomputed."""
    vals = {}
    for a in ctx.atoms:
        if a.kind == "var":
            v = model.eval(a.z3, model_completion=True) if model is not None else None
            vals[a.id] = _z3num(v) if v is not None else Fraction(default)
    for a in ctx.atoms:
        if a.kind != "var":
            try:
                vals[a.id] = a.evalf(vals) if a.evalf else _z3num(model.eval(a.z3, model_completion=True))
            except Exception:  # noqa: BLE001
                vals[a.id] = _z3num(model.eval(a.z3, model_completion=True)) if model is not None else 0
    return vals


def _z3num(v):
    if z3.is_rational_value(v):
        return Fraction(v.numerator_as_long(), v.denominator_as_long())
    if z3.is_algebraic_value(v):
        return Fraction(v.approx(30).numerator_as_long(), v.approx(30).denominator_as_long())
    try:
        return Fraction(str(v))
    except Exception:  # noqa: BLE001
        return Fraction(0)
