"""CrossHair (E3) contracts for toqito.perms.unique_perms - property C18.

Run:  /verif/.venv/bin/python -m crosshair check --report_all --per_condition_timeout 60 /verif/contracts/c18_unique_perms.py

Every function below is a private harness function; the PEP-316 docstring is the obligation.  Only
`Exception` is ever caught (CrossHair's own control-flow exceptions derive from BaseException).
"""
import itertools
import math

from toqito.perms.unique_perms import UniqueElement, unique_perms


def _listed(xs: list[int]) -> list[tuple[int, ...]]:
    """what the real generator yields, in order"""
    return list(unique_perms(xs))


def _unique_perms_each_rearrangement_once(xs: list[int]) -> list[tuple[int, ...]]:
    """
    The real unique_perms lists each distinct rearrangement of xs exactly once.

    pre: len(xs) <= 3 and all(0 <= x <= 2 for x in xs)
    post: len(__return__) == len(set(itertools.permutations(xs))) and set(__return__) == set(itertools.permutations(xs))
    """
    return _listed(xs)


def _unique_perms_reachability_twin(xs: list[int]) -> list[tuple[int, ...]]:
    """
    Reachability twin: same precondition and body, postcondition `False`: MUST be refuted.

    pre: len(xs) <= 3 and all(0 <= x <= 2 for x in xs)
    post: False
    """
    return _listed(xs)


def _unique_perms_reachability_twin_three_rearrangements(xs: list[int]) -> list[tuple[int, ...]]:
    """
    Reachability twin (deep): inputs with at least three distinct rearrangements are inside the precondition, i.e. the
    claim "fewer than three entries" MUST be refuted.

    pre: len(xs) <= 3 and all(0 <= x <= 2 for x in xs)
    post: len(__return__) < 3
    """
    return _listed(xs)


def _unique_perms_negative_control_wrong_count(xs: list[int]) -> list[tuple[int, ...]]:
    """
    Negative control (wrong property, real function): "as many entries as len(xs)!" is false as soon as a value
    repeats: MUST be refuted.

    pre: len(xs) <= 3 and all(0 <= x <= 2 for x in xs)
    post: len(__return__) == math.factorial(len(xs))
    """
    return _listed(xs)


def _mutant_helper(list_unique, result_list, elem_d):
    """unique_perms' helper with the occurrence counter NOT restored after the recursive call"""
    if elem_d < 0:
        yield tuple(result_list)
    else:
        for i in list_unique:
            if i.occurrences > 0:
                result_list[elem_d] = i.value
                i.occurrences -= 1
                yield from _mutant_helper(list_unique, result_list, elem_d - 1)


def _unique_perms_negative_control_mutant(xs: list[int]) -> list[tuple[int, ...]]:
    """
    Negative control (right property, mutated copy of the function): MUST be refuted.

    pre: len(xs) <= 3 and all(0 <= x <= 2 for x in xs)
    post: len(__return__) == len(set(itertools.permutations(xs))) and set(__return__) == set(itertools.permutations(xs))
    """
    uniq = [UniqueElement(value=i, occurrences=xs.count(i)) for i in set(xs)]
    return list(_mutant_helper(uniq, [0] * len(xs), len(xs) - 1))
