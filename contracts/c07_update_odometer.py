"""CrossHair contracts for toqito.helper.update_odometer (list form): the result is the mixed-radix successor.

Run: crosshair check --report_all --per_condition_timeout 60 contracts/c07_update_odometer.py"""
from __future__ import annotations

from toqito.helper import update_odometer


def _value(ind: list[int], lim: list[int]) -> int:
    v = 0
    for d, b in zip(ind, lim):
        v = v * b + d
    return v


def _total(lim: list[int]) -> int:
    t = 1
    for b in lim:
        t *= b
    return t


def successor_len2(a: int, b: int, la: int, lb: int) -> list[int]:
    """
    pre: 1 <= la <= 4 and 1 <= lb <= 4 and 0 <= a < la and 0 <= b < lb
    post: _value(__return__, [la, lb]) == (_value([a, b], [la, lb]) + 1) % _total([la, lb]) and len(__return__) == 2 and 0 <= __return__[0] < la and 0 <= __return__[1] < lb
    """
    return list(update_odometer([a, b], [la, lb]))


def successor_len3(a: int, b: int, c: int, la: int, lb: int, lc: int) -> list[int]:
    """
    pre: 1 <= la <= 3 and 1 <= lb <= 3 and 1 <= lc <= 3 and 0 <= a < la and 0 <= b < lb and 0 <= c < lc
    post: _value(__return__, [la, lb, lc]) == (_value([a, b, c], [la, lb, lc]) + 1) % _total([la, lb, lc]) and len(__return__) == 3
    """
    return list(update_odometer([a, b, c], [la, lb, lc]))


def reachability_twin(a: int, b: int, la: int, lb: int) -> list[int]:
    """
    pre: 1 <= la <= 4 and 1 <= lb <= 4 and 0 <= a < la and 0 <= b < lb
    post: False
    """
    return list(update_odometer([a, b], [la, lb]))


def negative_control(a: int, b: int, la: int, lb: int) -> list[int]:
    """
    pre: 1 <= la <= 4 and 1 <= lb <= 4 and 0 <= a < la and 0 <= b < lb
    post: _value(__return__, [la, lb]) == (_value([a, b], [la, lb]) + 2) % _total([la, lb])
    """
    return list(update_odometer([a, b], [la, lb]))
