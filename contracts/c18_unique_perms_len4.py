"""CrossHair (E3) contracts for toqito.perms.unique_perms - property C18, thorough tier bound (len <= 4, values 0..3).

Run:  /verif/.venv/bin/python -m crosshair check --report_all --per_condition_timeout 900 /verif/contracts/c18_unique_perms_len4.py

Only `Exception` is ever caught (CrossHair's own control-flow exceptions derive from BaseException).
"""
import itertools
import math

from toqito.perms.unique_perms import unique_perms


def _unique_perms_each_rearrangement_once_len4(xs: list[int]) -> list[tuple[int, ...]]:
    """
    The real unique_perms lists each distinct rearrangement of xs exactly once.

    pre: len(xs) <= 4 and all(0 <= x <= 3 for x in xs)
    post: len(__return__) == len(set(itertools.permutations(xs))) and set(__return__) == set(itertools.permutations(xs))
    """
    return list(unique_perms(xs))


def _unique_perms_reachability_twin_len4(xs: list[int]) -> list[tuple[int, ...]]:
    """
    Reachability twin: lists of the full length 4 are inside the precondition and reach the body: a list of length
    3 has at most 6 rearrangements, so the claim "at most 6 entries" MUST be refuted (by a list of length 4).

    pre: len(xs) <= 4 and all(0 <= x <= 3 for x in xs)
    post: len(__return__) <= 6
    """
    return list(unique_perms(xs))


def _unique_perms_negative_control_wrong_count_len4(xs: list[int]) -> list[tuple[int, ...]]:
    """
    Negative control (wrong property, real function): "as many entries as len(xs)!" MUST be refuted.

    pre: len(xs) <= 4 and all(0 <= x <= 3 for x in xs)
    post: len(__return__) == math.factorial(len(xs))
    """
    return list(unique_perms(xs))
