"""CrossHair (E3) contracts for toqito.perms.unique_perms - property C18, call histories.

"lists each distinct rearrangement exactly once" must hold for EVERY call, also when an earlier enumeration of an equal
list was abandoned after k steps, or is still being consumed in lock-step (shared state between generator objects would
break this).  xs and k are symbolic.

Run:  /verif/.venv/bin/python -m crosshair check --report_all --per_condition_timeout 60 /verif/contracts/c18_unique_perms_history.py
"""
import itertools

from toqito.perms.unique_perms import unique_perms


def history_listing(xs, k, lockstep):
    """the real generator on a list equal to one whose enumeration was abandoned after k items (and, with lockstep, keeps
    being advanced while the new one is consumed)"""
    g = unique_perms(list(xs))
    for _ in range(k):
        try:
            next(g)
        except StopIteration:
            break
    out = []
    for t in unique_perms(list(xs)):
        out.append(t)
        if lockstep:
            try:
                next(g)
            except StopIteration:
                pass
    return out


def _unique_perms_after_abandoned_enumeration(xs: list[int], k: int, lockstep: bool) -> list[tuple[int, ...]]:
    """
    pre: len(xs) <= 3 and all(0 <= x <= 2 for x in xs) and 0 <= k <= 3
    post: len(__return__) == len(set(itertools.permutations(xs))) and set(__return__) == set(itertools.permutations(xs))
    """
    return history_listing(xs, k, lockstep)


def _unique_perms_history_reachability_twin(xs: list[int], k: int, lockstep: bool) -> list[tuple[int, ...]]:
    """
    Reachability twin: inputs with an abandoned non-trivial enumeration are inside the precondition: MUST be refuted.

    pre: len(xs) <= 3 and all(0 <= x <= 2 for x in xs) and 0 <= k <= 3
    post: k == 0 or len(__return__) < 3
    """
    return history_listing(xs, k, lockstep)


_SHARED = {}


def _shared_state_mutant(xs):
    """a unique_perms whose remaining-items state is shared between generators over equal lists"""
    key = tuple(xs)
    if key not in _SHARED:
        _SHARED[key] = sorted(set(itertools.permutations(xs)))
    pool = _SHARED[key]
    while pool:
        yield pool.pop()


def _unique_perms_history_negative_control_mutant(xs: list[int], k: int) -> list[tuple[int, ...]]:
    """
    Negative control (right property, mutant with shared state): MUST be refuted.

    pre: len(xs) <= 3 and all(0 <= x <= 2 for x in xs) and 0 <= k <= 3
    post: len(__return__) == len(set(itertools.permutations(xs))) and set(__return__) == set(itertools.permutations(xs))
    """
    _SHARED.clear()
    g = _shared_state_mutant(list(xs))
    for _ in range(k):
        try:
            next(g)
        except StopIteration:
            break
    return list(_shared_state_mutant(list(xs)))
